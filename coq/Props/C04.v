(* C04 — Projection: fields the target struct lacks are skipped without side
   effects; skipping any value consumes exactly the bytes decoding it would. *)
From Coq Require Import List ZArith.
Require Import Avro.Model.Base Avro.Model.Prim Avro.Model.Schema Avro.Model.GoType
               Avro.Model.Spec Avro.Model.Codec Avro.Model.Denote.
Require Import Avro.Proofs.Wire Avro.Proofs.BuildP Avro.Proofs.ReadP Avro.Proofs.ProjectP.
Import ListNotations.
Open Scope Z_scope.

(* For every registry, schema, Go type (or none: a field the struct lacks),
   and every byte string the strict reference decoder accepts as an encoding of
   some datum — any block structure, sized or unsized — the codec the library
   builds skips to exactly the position where the encoding ends. *)
Theorem C04_skip_exact : forall reg s t om c fuel bs d r,
  build reg s t om = Some c -> sd fuel s bs = Done d r -> c_skip fuel c bs = Done tt r.
Proof. intros reg s t om c fuel bs d r Hb Hs. eapply skip_exact; [eapply build_wire; exact Hb|exact Hs]. Qed.
Print Assumptions C04_skip_exact.

(* ... and that is the position where decoding ends: Skip and Read consume the same bytes. *)
Theorem C04_skip_equals_read : forall reg s t om c fuel bs d r dest v,
  build reg s t om = Some c -> sd fuel s bs = Done d r -> apply_datum c dest d = Some v ->
  c_read fuel c dest bs = Done v r /\ c_skip fuel c bs = Done tt r.
Proof.
  intros reg s t om c fuel bs d r dest v Hb Hs Ha. pose proof (build_wire _ _ _ _ _ Hb) as W. split.
  - eapply read_complete; eauto.
  - eapply skip_exact; eauto.
Qed.
Print Assumptions C04_skip_equals_read.

(* Projection, at the level of the decoded datum (R lifts it to bytes): take the
   record codec for a full target and the one for the same target with some
   fields removed ([keep j = false]: schema fields that targeted struct field j
   are now skipped).  Decoding the same record into the same initial struct:
   every kept field gets exactly the value it gets in the full target, and every
   removed field keeps its initial (zero) value. *)
Theorem C04_projection_drop : forall keep fs ds vs0 vsA',
  apply_fields fs ds vs0 = Some vsA' ->
  exists vsB', apply_fields (map (drop_target keep) fs) ds vs0 = Some vsB' /\
    length vsB' = length vs0 /\
    (forall j, keep j = true -> nth j vsB' VBad = nth j vsA' VBad) /\
    (forall j, keep j = false -> nth j vsB' VBad = nth j vs0 VBad).
Proof. intros keep fs ds vs0 vsA' H. eapply (projection_drop keep fs ds vs0 vs0 vs0 vsA'); auto. Qed.
Print Assumptions C04_projection_drop.

(* fields added to the target (no schema field targets them) are left as they were *)
Theorem C04_added_fields_untouched : forall fs ds vs vs' j,
  (forall c, ~ In (c, Some j) fs) -> apply_fields fs ds vs = Some vs' -> nth j vs' VBad = nth j vs VBad.
Proof. exact untargeted_unchanged. Qed.
Print Assumptions C04_added_fields_untouched.

(* non-vacuity: a record with a size-prefixed multi-block array followed by a
   further field, decoded, projected onto a struct lacking the array, and skipped *)
Example C04_ex :
  let s := SRecord [([97], SArray (SLong LtNone)); ([98], SString)] in
  let bs := [3; 4; 2; 4; 2; 6; 0; 2; 120; 9] in   (* block of 2 with byte size 2, block of 1, end; "x"; tail 9 *)
  let t := TStruct [] [] [GF [66] true [98] [] TString] in
  sd 50 s bs = Done (DRecord [DArray [DLong 1; DLong 2; DLong 3]; DString [120]]) [9] /\
  (exists c, build reg_std s (Some t) false = Some c /\
             c_read 50 c (zero_of t) bs = Done (VStruct [VStr [120]]) [9] /\
             c_skip 50 c bs = Done tt [9]).
Proof. cbv zeta. split; [vm_compute; reflexivity|]. eexists. split; [vm_compute; reflexivity|]. split; vm_compute; reflexivity. Qed.
