(* C09 — Encoder output is an exact, gap-free sequence of blocks for any call
   history.  Statements only, closed by [exact], with [Print Assumptions] under
   each, and non-vacuity examples.

   Model: Model/Container.v ([enc_step], [enc_run]: Encoder.Encode / Flush over
   FileWriter.WriteBlock, every Write call a separate chunk) against the
   abstract grouping specification [blocks_spec].  [compress] is an arbitrary
   function: the theorems hold for every compressor, hence for all three
   codecs.  [size] is any integer (the library only accepts size >= 0). *)
From Coq Require Import List ZArith Lia.
Require Import Avro.Model.Base Avro.Model.Prim Avro.Model.Container Avro.Model.Writer.
Require Import Avro.Proofs.WriterP.
Import ListNotations.
Open Scope Z_scope.

(* (a) refinement: the bytes after the header are the blocks of the closed
   groups of the specification, in order; the encoder holds exactly the
   pending group *)
Theorem C09_refinement : forall (compress : bytes -> bytes) (sync : bytes) (size : Z) (ops : list enc_op),
  concat (snd (enc_run compress sync size enc_init ops)) =
    concat (map (fun g => block_bytes sync (Z.of_nat (length g)) (compress (concat g)))
                (fst (blocks_spec size [] ops))) /\
  e_buf (fst (enc_run compress sync size enc_init ops)) = concat (snd (blocks_spec size [] ops)) /\
  e_count (fst (enc_run compress sync size enc_init ops)) = Z.of_nat (length (snd (blocks_spec size [] ops))).
Proof. exact enc_run_refines. Qed.
Print Assumptions C09_refinement.

(* the invariant behind it, from any state that holds a pending group *)
Theorem C09_refinement_any_state : forall compress sync size ops st pending,
  e_buf st = concat pending -> e_count st = Z.of_nat (length pending) ->
  concat (snd (enc_run compress sync size st ops)) =
    concat (map (fun g => block_bytes sync (Z.of_nat (length g)) (compress (concat g)))
                (fst (blocks_spec size pending ops))) /\
  e_buf (fst (enc_run compress sync size st ops)) = concat (snd (blocks_spec size pending ops)) /\
  e_count (fst (enc_run compress sync size st ops)) = Z.of_nat (length (snd (blocks_spec size pending ops))).
Proof. intros c s z ops st p Hb Hc. exact (enc_run_refines_gen c s z ops st p (conj Hb Hc)). Qed.
Print Assumptions C09_refinement_any_state.

(* Write call for Write call: every block is four writes; the count field is
   the number of records of the group and the length field is the length of
   the stored (compressed) payload, followed by the header's sync marker *)
Theorem C09_block_fields : forall compress sync size ops,
  snd (enc_run compress sync size enc_init ops) =
  concat (map (fun g => [enc_varint (Z.of_nat (length g));
                         enc_varint (len (compress (concat g)));
                         compress (concat g);
                         sync]) (fst (blocks_spec size [] ops))).
Proof. exact enc_run_chunks. Qed.
Print Assumptions C09_block_fields.

(* (b) nothing lost, duplicated or reordered *)
Theorem C09_records_in_order : forall size ops,
  concat (fst (blocks_spec size [] ops)) ++ snd (blocks_spec size [] ops) = recs_of ops.
Proof. intros size ops. exact (blocks_spec_records size ops []). Qed.
Print Assumptions C09_records_in_order.

(* no empty block *)
Theorem C09_no_empty_block : forall size ops,
  Forall (fun g => g <> []) (fst (blocks_spec size [] ops)).
Proof. intros size ops. exact (blocks_spec_nonempty size ops []). Qed.
Print Assumptions C09_no_empty_block.

(* "as soon as": [blocks_tagged] is [blocks_spec] with the reason each group
   was closed; a group closed by Encode has reached the block size, a group
   closed by Flush has not, and in both cases no non-empty proper prefix of
   the group had reached it *)
Theorem C09_tagged_is_spec : forall size ops,
  map fst (fst (blocks_tagged size [] ops)) = fst (blocks_spec size [] ops) /\
  snd (blocks_tagged size [] ops) = snd (blocks_spec size [] ops).
Proof. intros size ops. exact (blocks_tagged_erase size ops []). Qed.
Print Assumptions C09_tagged_is_spec.

Theorem C09_as_soon_as : forall size ops g why,
  In (g, why) (fst (blocks_tagged size [] ops)) ->
  match why with
  | BySize => size <= len (concat g)
  | ByFlush => len (concat g) < size
  end /\
  (forall p q, g = p ++ q -> p <> [] -> q <> [] -> len (concat p) < size).
Proof. exact as_soon_as. Qed.
Print Assumptions C09_as_soon_as.

(* the pending group has never reached the block size *)
Theorem C09_pending_below_size : forall size ops,
  snd (blocks_spec size [] ops) = [] \/ len (concat (snd (blocks_spec size [] ops))) < size.
Proof. exact pending_below_size. Qed.
Print Assumptions C09_pending_below_size.

(* one call: an Encode below the block size writes nothing, one that reaches
   it writes its block at once and empties the buffer *)
Theorem C09_encode_step : forall compress sync size st pending rec,
  e_buf st = concat pending -> e_count st = Z.of_nat (length pending) ->
  (len (concat (pending ++ [rec])) < size ->
     snd (enc_step compress sync size st (OpEncode rec)) = []) /\
  (size <= len (concat (pending ++ [rec])) ->
     enc_step compress sync size st (OpEncode rec) =
     (enc_init, block_chunks sync (Z.of_nat (length (pending ++ [rec]))) (compress (concat (pending ++ [rec]))))).
Proof. intros c s z st p r Hb Hc. exact (enc_step_encode_timing c s z st p r (conj Hb Hc)). Qed.
Print Assumptions C09_encode_step.

(* after Flush returns nothing remains buffered, and the blocks written so
   far hold every record encoded so far *)
Theorem C09_flush_leaves_nothing : forall compress sync size ops,
  e_count (fst (enc_run compress sync size enc_init (ops ++ [OpFlush]))) = 0 /\
  e_buf (fst (enc_run compress sync size enc_init (ops ++ [OpFlush]))) = [].
Proof. exact flush_leaves_nothing. Qed.
Print Assumptions C09_flush_leaves_nothing.

Theorem C09_flush_complete : forall size ops,
  snd (blocks_spec size [] (ops ++ [OpFlush])) = [] /\
  concat (fst (blocks_spec size [] (ops ++ [OpFlush]))) = recs_of ops.
Proof. intros size ops. split; [apply blocks_spec_app_flush|apply flush_complete]. Qed.
Print Assumptions C09_flush_complete.

(* what was written before a later call stays: the output of a history is an
   extension of the output of each of its prefixes *)
Theorem C09_output_extends : forall compress sync size ops more,
  snd (enc_run compress sync size enc_init (ops ++ more)) =
  snd (enc_run compress sync size enc_init ops) ++
  snd (enc_run compress sync size (fst (enc_run compress sync size enc_init ops)) more).
Proof. intros c s z ops more. rewrite enc_run_app. reflexivity. Qed.
Print Assumptions C09_output_extends.

(* (c) the framing is decodable: a reader that knows the 16-byte sync marker
   recovers (count, stored payload) of every block, for counts and lengths in
   the int64 range *)
Theorem C09_framing_decodable : forall sync blocks,
  length sync = 16%nat ->
  Forall (fun cp => int64_ok (fst cp) /\ int64_ok (len (snd cp))) blocks ->
  parse_blocks sync (concat (map (fun cp => block_bytes sync (fst cp) (snd cp)) blocks)) = Some blocks.
Proof. exact parse_blocks_inv. Qed.
Print Assumptions C09_framing_decodable.

Theorem C09_framing_unambiguous : forall sync b1 b2,
  length sync = 16%nat ->
  Forall (fun cp => int64_ok (fst cp) /\ int64_ok (len (snd cp))) b1 ->
  Forall (fun cp => int64_ok (fst cp) /\ int64_ok (len (snd cp))) b2 ->
  concat (map (fun cp => block_bytes sync (fst cp) (snd cp)) b1) =
  concat (map (fun cp => block_bytes sync (fst cp) (snd cp)) b2) -> b1 = b2.
Proof. exact blocks_bytes_inj. Qed.
Print Assumptions C09_framing_unambiguous.

(* so the encoder's bytes parse back to the groups: each stored payload is the
   compression of a whole number of record encodings, none split across blocks *)
Theorem C09_output_parses : forall compress sync size ops,
  length sync = 16%nat ->
  Forall (fun g : list bytes => Z.of_nat (length g) < two63 /\ len (compress (concat g)) < two63)
         (fst (blocks_spec size [] ops)) ->
  parse_blocks sync (concat (snd (enc_run compress sync size enc_init ops))) =
  Some (map (fun g : list bytes => (Z.of_nat (length g), compress (concat g))) (fst (blocks_spec size [] ops))).
Proof. exact enc_run_parses. Qed.
Print Assumptions C09_output_parses.

(* ---- non-vacuity ---------------------------------------------------------- *)

Definition ex_sync : bytes := [1;2;3;4;5;6;7;8;9;10;11;12;13;14;15;16].
Definition ex_compress (bs : bytes) : bytes := 200 :: bs ++ [201].   (* some compressor that is not the identity *)

(* records of size 0, 1, block size - 1, block size, block size + 1; block size 4 *)
Definition ex_ops : list enc_op :=
  [OpFlush; OpEncode []; OpEncode [7]; OpFlush; OpFlush;
   OpEncode [1;2;3]; OpEncode []; OpEncode [9];
   OpEncode [1;2;3;4]; OpEncode [1;2;3;4;5]; OpEncode [5]; OpEncode []].

Example C09_ex_groups :
  blocks_tagged 4 [] ex_ops =
  ([([[]; [7]], ByFlush); ([[1;2;3]; []; [9]], BySize); ([[1;2;3;4]], BySize); ([[1;2;3;4;5]], BySize)],
   [[5]; []]).
Proof. vm_compute. reflexivity. Qed.

Example C09_ex_run :
  enc_run ex_compress ex_sync 4 enc_init ex_ops =
  ({| e_buf := [5]; e_count := 2 |},
   [ [4]; [6]; [200;7;201]; ex_sync;
     [6]; [12]; [200;1;2;3;9;201]; ex_sync;
     [2]; [12]; [200;1;2;3;4;201]; ex_sync;
     [2]; [14]; [200;1;2;3;4;5;201]; ex_sync ]).
Proof. vm_compute. reflexivity. Qed.

(* block size 0: every Encode writes its own block, also for an empty record;
   Flush never finds anything pending *)
Example C09_ex_size0 :
  blocks_tagged 0 [] [OpEncode []; OpFlush; OpEncode [1]; OpEncode []] =
  ([([[]], BySize); ([[1]], BySize); ([[]], BySize)], []) /\
  snd (enc_run (fun x => x) ex_sync 0 enc_init [OpEncode []; OpFlush]) = [[2]; [0]; []; ex_sync].
Proof. split; vm_compute; reflexivity. Qed.

(* the reader recovers the blocks of the example *)
Example C09_ex_parse :
  parse_blocks ex_sync (concat (snd (enc_run ex_compress ex_sync 4 enc_init ex_ops))) =
  Some [(2, [200;7;201]); (3, [200;1;2;3;9;201]); (1, [200;1;2;3;4;201]); (1, [200;1;2;3;4;5;201])].
Proof. vm_compute. reflexivity. Qed.

(* ---- the FileWriter used directly, one FileWriter serving several files ----
   An application with its own record encoder calls WriteHeader / AppendHeader / WriteBlock
   itself, possibly for several io.Writers with the calls interleaved (a sharding exporter, a
   mirror).  [fw_written ops w] is what writer w holds after the history; calls for other
   writers and AppendHeader calls leave it alone.  If the calls that concern w are one
   WriteHeader followed by WriteBlock calls whose blocks hold the declared number of records,
   then w holds a valid container: the reader recovers schema, codec name and the sync marker
   and delivers exactly the records of its blocks - every block is followed by the marker
   that every header of this FileWriter carries. *)
Require Import Avro.Proofs.ContainerP Avro.Proofs.FileP Avro.Proofs.FileWriterP.
Theorem C09_filewriter_any_interleaving : forall compress decompress,
  (forall x, decompress (compress x) = Some x) ->
  forall schema_json codec_name sync, len schema_json < two63 -> len codec_name < two63 -> len sync = 16 ->
  forall read_record ops w bl fuel,
  filter (fw_for w) ops = FwHeader w :: map (fun p => FwBlock w (fst p) (snd p)) bl ->
  Forall (fw_block_ok compress read_record) bl -> (length bl < fuel)%nat ->
  exists body,
    read_header (fw_written compress schema_json codec_name sync ops w)
      = Some ({| h_meta := written_meta schema_json codec_name; h_sync := sync |}, body) /\
    read_blocks decompress read_record (fun _ => None) fuel sync 0 body
      = (total (map (vb_of_block compress) bl), FOk).
Proof. exact filewriter_any_interleaving. Qed.
Print Assumptions C09_filewriter_any_interleaving.

(* AppendHeader keeps what the buffer held and appends the header WriteHeader writes *)
Theorem C09_append_header : forall compress schema_json codec_name sync buf w,
  fw_append schema_json codec_name sync buf = buf ++ fw_written compress schema_json codec_name sync [FwHeader w] w.
Proof. exact append_header_is_header. Qed.
Print Assumptions C09_append_header.

(* non-vacuity: two files fed in turns through one FileWriter, one byte per record *)
Example C09_filewriter_ex :
  let sync := repeat 9 16 in
  let rr := fun bs : bytes => match bs with [] => Err | _ :: r => Done tt r end in
  let ops := [FwHeader 0; FwHeader 1; FwBlock 1 2 [7; 8]; FwAppend [1]; FwBlock 0 1 [5]; FwBlock 1 1 [9]] in
  match read_header (fw_written (fun x => x) [115] [110] sync ops 1) with
  | Some (h, body) => h_sync h = sync /\ read_blocks (fun x => Some x) rr (fun _ => None) 4 sync 0 body = (3%nat, FOk)
  | None => False
  end /\
  match read_header (fw_written (fun x => x) [115] [110] sync ops 0) with
  | Some (h, body) => read_blocks (fun x => Some x) rr (fun _ => None) 4 sync 0 body = (1%nat, FOk)
  | None => False
  end.
Proof. cbv zeta. split; vm_compute; split; reflexivity || reflexivity. Qed.
