(* C18 — Timestamp parsing agrees with the standard library on RFC 3339.
   Statements only, closed by [exact]; [Print Assumptions] under each; non-vacuity
   examples at the end.  The parser model (Model/Time.v, parse_time) describes
   /repo/time/parse.go after fix: commit 80868a2; [unix_of_fields] is the model
   of time.Date and [render_time] of Time.Format(time.RFC3339Nano), both tied to
   the Go standard library by the correspondence check (Corr/Time.v). *)
From Coq Require Import List ZArith Lia.
Require Import Avro.Model.Base Avro.Model.GoType Avro.Model.Time.
Require Import Avro.Proofs.TimeP.
Import ListNotations.
Open Scope Z_scope.

(* every string produces an error or a time, never a panic *)
Theorem C18_no_panic : forall s, parse_time s <> PPanic.
Proof. exact parse_time_no_panic. Qed.
Print Assumptions C18_no_panic.

(* The RFC 3339 date-time grammar
     YYYY-MM-DDThh:mm:ss[(.|,)d*](Z|(+|-)hh:mm)
   as a text builder: [render_fields y mo d h mi sec fr z] with [fr = None] (no
   fraction) or [Some (sep, ds)] (separator byte and ANY number of fraction digits)
   and [z = ZUtc] or [ZOff neg hh mm].  Every two-digit field may hold any value
   00..99: the parser does not range-check, it hands the fields to time.Date,
   whose normalisation is [unix_of_fields].  On all of them the parser returns
   the instant of the fields at that offset, the fraction given by the first nine
   digits scaled to nanoseconds ([nanos_of]), and the offset itself. *)
Theorem C18_rfc3339_grammar : forall y mo d h mi sec fr z,
  0 <= y <= 9999 -> two_digit mo -> two_digit d -> two_digit h -> two_digit mi -> two_digit sec ->
  frac_wf fr -> zone_wf z ->
  parse_time (render_fields y mo d h mi sec fr z) =
  POk (TV (unix_of_fields y mo d h mi sec (zone_off z)) (frac_ns fr) (zone_off z)).
Proof. exact parse_render_fields. Qed.
Print Assumptions C18_rfc3339_grammar.

(* for a month 01..12 that instant is the civil-calendar formula *)
Theorem C18_rfc3339_instant : forall y mo d h mi sec fr z,
  0 <= y <= 9999 -> 1 <= mo <= 12 -> two_digit d -> two_digit h -> two_digit mi -> two_digit sec ->
  frac_wf fr -> zone_wf z ->
  parse_time (render_fields y mo d h mi sec fr z) =
  POk (TV (days_from_civil y mo d * 86400 + h * 3600 + mi * 60 + sec - zone_off z) (frac_ns fr) (zone_off z)).
Proof.
  intros y mo d h mi sec fr z Hy Hmo. intros. rewrite <- unix_of_fields_month by exact Hmo.
  apply parse_render_fields; auto. unfold two_digit. lia.
Qed.
Print Assumptions C18_rfc3339_instant.

(* digits beyond the ninth do not matter; the fraction is below one second *)
Theorem C18_fraction_nine_digits : forall ds,
  nanos_of (firstn 9 ds) = nanos_of ds /\ (Forall is_digit_val ds -> 0 <= nanos_of ds < 1000000000).
Proof. intros ds. split; [apply nanos_of_firstn|apply nanos_of_range]. Qed.
Print Assumptions C18_fraction_nine_digits.

(* YYYY-MM-DD is midnight UTC of that day *)
Theorem C18_date_only : forall y mo d,
  0 <= y <= 9999 -> 1 <= mo <= 12 -> two_digit d ->
  parse_time (date_text y mo d) = POk (TV (days_from_civil y mo d * 86400) 0 0).
Proof.
  intros y mo d Hy Hmo Hd. rewrite parse_date_only by (unfold two_digit in *; lia).
  rewrite unix_of_fields_month by exact Hmo. do 2 f_equal. lia.
Qed.
Print Assumptions C18_date_only.

(* the calendar conversion used by the formatter inverts the one used by
   time.Date, for EVERY day number (proved by arithmetic on the 400-year era plus
   a kernel-checked sweep of the 146097 days of one era) *)
Theorem C18_calendar_inverse : forall z,
  let '(y, m, d) := civil_from_days z in
  days_from_civil y m d = z /\ 1 <= m <= 12 /\ 1 <= d <= 31.
Proof. exact civil_roundtrip. Qed.
Print Assumptions C18_calendar_inverse.

(* Format(RFC3339Nano) then parse is the identity: every time with a nanosecond
   field below one second, an offset of whole minutes below 100 hours, and local
   time within years 0000..9999 (-62167219200 = 0000-01-01T00:00:00,
   253402300800 = 10000-01-01T00:00:00). *)
Theorem C18_format_parse_roundtrip : forall us ns off,
  0 <= ns < 1000000000 -> off mod 60 = 0 -> -360000 < off < 360000 ->
  -62167219200 <= us + off < 253402300800 ->
  parse_time (render_time (TV us ns off)) = POk (TV us ns off).
Proof. exact parse_render_time. Qed.
Print Assumptions C18_format_parse_roundtrip.

(* non-vacuity *)
Example C18_ex_grammar :
  render_fields 2006 1 2 13 37 42 (Some (44, [1;2;3;4;5;6;7;8;9;9;9])) (ZOff true 7 30) =
    [50;48;48;54;45;48;49;45;48;50;84;49;51;58;51;55;58;52;50;44;49;50;51;52;53;54;55;56;57;57;57;45;48;55;58;51;48] /\
  parse_time (render_fields 2006 1 2 13 37 42 (Some (44, [1;2;3;4;5;6;7;8;9;9;9])) (ZOff true 7 30)) =
    POk (TV 1136236062 123456789 (-27000)) /\
  nanos_of [1;2;3] = 123000000 /\ nanos_of [] = 0 /\
  parse_time (render_fields 2006 1 2 13 37 42 None ZUtc) = POk (TV 1136209062 0 0).
Proof. repeat split; vm_compute; reflexivity. Qed.
Example C18_ex_date_and_errors :
  parse_time (date_text 1969 12 31) = POk (TV (-86400) 0 0) /\
  parse_time (date_text 0 2 29) = POk (TV (-62162121600) 0 0) /\
  (* trailing separator, missing zone, junk after the zone *)
  parse_time [50;48;48;54;45;48;49;45;48;50;84;49;51;58;51;55;58;52;50;46] = PErr /\
  parse_time [50;48;48;54;45;48;49;45;48;50;84;49;51;58;51;55;58;52;50;46;53] = PErr /\
  parse_time [50;48;48;54;45;48;49;45;48;50;84;49;51;58;51;55;58;52;50;90;90] = PErr /\
  parse_time [] = PErr.
Proof. repeat split; vm_compute; reflexivity. Qed.
Example C18_ex_roundtrip :
  render_time (TV (-62167219200) 0 0) = [48;48;48;48;45;48;49;45;48;49;84;48;48;58;48;48;58;48;48;90] /\
  render_time (TV 253402300799 999999999 0) =
    [57;57;57;57;45;49;50;45;51;49;84;50;51;58;53;57;58;53;57;46;57;57;57;57;57;57;57;57;57;90] /\
  render_time (TV (-1) 500000000 (-3600)) =
    [49;57;54;57;45;49;50;45;51;49;84;50;50;58;53;57;58;53;57;46;53;45;48;49;58;48;48] /\
  parse_time (render_time (TV (-1) 500000000 (-3600))) = POk (TV (-1) 500000000 (-3600)) /\
  civil_from_days (-1) = (1969, 12, 31) /\ civil_from_days 11016 = (2000, 2, 29).
Proof. repeat split; vm_compute; reflexivity. Qed.
