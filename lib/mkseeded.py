#!/usr/bin/env python3
"""Collect the confirmed seeded changes from the scratch area into /verif/seeded/<id>/
(patch.diff, demo_test.go, WHERE.txt, README.md of the author, meta.json) and write
seeded/README.md.  usage: mkseeded.py [/tmp/mut [tag]]"""
import json, os, re, shutil, sys
ROOT = os.path.dirname(os.path.dirname(os.path.abspath(__file__)))
SRC = sys.argv[1] if len(sys.argv) > 1 else "/tmp/mut"
TAG = sys.argv[2] if len(sys.argv) > 2 else ""
OUT = os.path.join(ROOT, "seeded")

def needs_section(readme):
    """the author's 'what is needed for it to manifest' section, flattened"""
    m = re.search(r"^#+\s*[^\n]*(needed|manifest|Trigger)[^\n]*\n(.*?)(?=^#+\s|\Z)", readme, re.S | re.M | re.I)
    txt = m.group(2) if m else readme
    txt = re.sub(r"\s+", " ", txt).strip()
    return txt[:900]

def title(readme):
    for l in readme.splitlines():
        if l.startswith("#"):
            return l.lstrip("# ").strip()
    return ""

def main():
    os.makedirs(OUT, exist_ok=True)
    rows = []
    hist = {}
    if os.path.exists(os.path.join(OUT, "history.json")):
        hist = json.load(open(os.path.join(OUT, "history.json")))
    for d in sorted(os.listdir(SRC)):
        m = re.fullmatch(r"([CMNPQRSTUVWXYZ]\d\d)-out", d)
        if not m:
            continue
        prop = m.group(1)
        for mm in sorted(os.listdir(os.path.join(SRC, d))):
            md = os.path.join(SRC, d, mm)
            st = os.path.join(md, "seedtest.json")
            if not os.path.exists(st):
                continue
            res = json.load(open(st))
            if not res.get("confirmed"):
                continue
            sid = "%s-%s%s" % (prop, (TAG + "-") if TAG else "", mm)
            dst = os.path.join(OUT, sid)
            os.makedirs(dst, exist_ok=True)
            for f in ("patch.diff", "demo_test.go", "WHERE.txt", "README.md"):
                if os.path.exists(os.path.join(md, f)):
                    shutil.copyfile(os.path.join(md, f), os.path.join(dst, f))
            readme = open(os.path.join(md, "README.md")).read() if os.path.exists(os.path.join(md, "README.md")) else ""
            prev = {}
            if os.path.exists(os.path.join(dst, "meta.json")):
                prev = json.load(open(os.path.join(dst, "meta.json")))
            checks = dict(prev.get("checks", {}))
            for k, v in res.get("checks", {}).items():
                checks[k] = {"caught": v["caught"], "wall_s": v["wall_s"], "lines": v.get("lines", [])[:3]}
            history = hist.get(sid, [])
            meta = {
                "id": sid, "property": res.get("property", prop), "title": title(readme),
                "needs_to_manifest": needs_section(readme),
                "author": "fresh sub-agent given only the property text and a scratch worktree of /repo",
                "base_commit_of_check_run": res.get("base_commit", ""),
                "what_i_ran": [
                    "git apply patch.diff in a scratch worktree (/tmp/mut/run); go build ./... && go test -count=1 ./...  -> passes: %s" % res.get("suite_passes_with_change"),
                    "demo copied into ./%s, go test -run '%s'  -> fails with the change: %s; passes without it: %s" % (
                        res.get("demo_dir"), res.get("demo_run"), res.get("demo_fails_with_change"), res.get("demo_passes_without_change")),
                    "VERIF_REPO=<worktree with the change> ./check <id> quick for: " + ", ".join(sorted(checks)),
                ],
                "demo_dir": res.get("demo_dir"), "demo_run": res.get("demo_run"),
                "checks": checks,
                "caught_by": sorted(k for k, v in checks.items() if v["caught"]),
                "missed_by": sorted(k for k, v in checks.items() if not v["caught"]),
                "history": history,
            }
            json.dump(meta, open(os.path.join(dst, "meta.json"), "w"), indent=1)
            rows.append(meta)
    rows = []
    for d in sorted(os.listdir(OUT)):
        mf = os.path.join(OUT, d, "meta.json")
        if os.path.exists(mf):
            rows.append(json.load(open(mf)))
    with open(os.path.join(OUT, "README.md"), "w") as f:
        f.write("# Seeded changes\n\nEach directory holds a change to philpearl/avro written by a fresh sub-agent that saw only the\n"
                "property text (`patch.diff`), its demonstration (`demo_test.go`, `WHERE.txt`), the author's notes\n"
                "(`README.md`) and `meta.json` (what it needs to manifest, what was run, which checks catch it).\n"
                "None is committed to /repo.  Re-run one with `python3 lib/seedtest.py seeded/<id> <Cxx>` after\n"
                "`git -C /repo worktree add --detach /tmp/mut/run HEAD`.\n\n"
                "`history` in meta.json records a check that first missed the change and what was strengthened.\n\n"
                "| id | change | caught by (quick tier) | not caught by |\n|---|---|---|---|\n")
        for m in rows:
            f.write("| %s | %s | %s | %s |\n" % (m["id"], m["title"].replace("|", "/")[:110], ", ".join(m["caught_by"]) or "—", ", ".join(m["missed_by"]) or "—"))
    print(len(rows), "seeded changes")

main()
