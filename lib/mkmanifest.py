#!/usr/bin/env python3
"""Regenerates MANIFEST.json from lib/props.py (claimed checks) and lib/na.py (not claimed)."""
import json, os, sys
sys.path.insert(0, os.path.dirname(os.path.abspath(__file__)))
import props
ROOT = os.path.dirname(os.path.dirname(os.path.abspath(__file__)))
allids = [json.loads(l)["id"] for l in open(os.path.join(ROOT, "properties.jsonl"))]
checks = []
for pid in allids:
    if pid not in props.PROPS:
        continue
    m = props.PROPS[pid]
    checks.append({
        "property_id": pid,
        "quick_cmd": "./check %s quick" % pid,
        "thorough_cmd": "./check %s thorough" % pid,
        "evidence_file": "/verif/evidence/%s.json" % pid,
        "replay_cmd_template": "./check %s --replay {path}" % pid,
        "engine": "coq-model+correspondence",
        "level_claimed": {"category": "proof", "text": m["level_text"], "design_ref": m.get("design_ref", "DESIGN.md §5 " + pid)},
        "level_note": m["level_note"],
        "technique": m.get("technique", "machine-checked proof in Coq 8.16 over a hand-written Gallina model, tied to the Go code by differential correspondence (cases evaluated inside coqc) plus a direct property oracle on the implementation"),
    })
na = [{"property_id": pid, "reason": props.NOT_YET.get(pid, "check not built yet in this round; see DESIGN.md §5 for the planned theorem and correspondence")}
      for pid in allids if pid not in props.PROPS]
man = {
    "version": 1,
    "setup_cmd": "./check setup",
    "hooks": {
        "guard": "verif",
        "enable": "go build -tags verif (the harness module replaces github.com/philpearl/avro by /repo)",
        "baseline_off_cmd": "cd /repo && go test -mod=mod -json -vet=off -count=1 -timeout 25m ./...",
        "source_commits": props.HOOK_COMMITS,
        "add_only": True,
    },
    "engines": [{
        "name": "coq-model+correspondence", "path": "/verif/coq, /verif/harness, /verif/lib/vcheck.py",
        "serves_properties": [c["property_id"] for c in checks],
        "kind_free_text": "Coq 8.16.1 development (Model/ Proofs/ Props/ Corr/) + Go harness that prints cases and implementation observables as Coq terms evaluated by coqc with vm_compute",
    }],
    "checks": checks,
    "not_applicable": na,
    "notes": "Every check: (1) rebuilds the Coq development and re-checks Props/<id>.v with Print Assumptions, (2) rebuilds the harness against /repo's working tree with -tags verif, (3) runs the direct property oracle on the implementation, (4) evaluates the Gallina model on the same cases inside coqc and compares. known_findings.txt lists recorded findings; see DESIGN.md.",
}
json.dump(man, open(os.path.join(ROOT, "MANIFEST.json"), "w"), indent=1)
print("claimed:", [c["property_id"] for c in checks], "not claimed:", len(na))
