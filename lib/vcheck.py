import fcntl, glob, json, os, re, subprocess, sys, time, shutil
from concurrent.futures import ThreadPoolExecutor

ROOT = os.path.dirname(os.path.dirname(os.path.abspath(__file__)))
COQ = os.path.join(ROOT, "coq")
HARNESS_SRC = os.path.join(ROOT, "harness")
# VERIF_REPO (for experiments with seeded changes only): run the same check against another
# copy of the library without touching /repo.  Everything it writes goes to build/alt-<tag>/;
# evidence/ is only ever written by runs against /repo itself.
REPO = os.path.abspath(os.environ.get("VERIF_REPO", "/repo"))
ALT = REPO != "/repo"
BUILD = os.path.join(ROOT, "build") if not ALT else os.path.join(ROOT, "build", "alt-" + re.sub(r"[^A-Za-z0-9]+", "_", REPO).strip("_"))
HARNESS = HARNESS_SRC if not ALT else os.path.join(BUILD, "harness")
EVID = os.path.join(ROOT, "evidence") if not ALT else os.path.join(BUILD, "evidence")
REPLAYS = os.path.join(BUILD, "replays")

GOENV = dict(os.environ, GOFLAGS="-mod=mod", GOPROXY="off")
for k in ("GOTOOLCHAIN", "GOSUMDB"):
    GOENV.pop(k, None)           # either breaks the cached go1.24.0 toolchain lookup

import props as PROPS            # per-property metadata

STD_AXIOMS_ALLOWED = {
    # standard-library axioms a proof may depend on; each is reported in evidence when present
    "functional_extensionality_dep", "proof_irrelevance", "eq_rect_eq", "classic", "JMeq_eq",
}

def log(*a):
    print(*a, file=sys.stderr, flush=True)

class Lock:
    def __init__(self, name):
        os.makedirs(BUILD, exist_ok=True)
        # the Coq build is shared by all runs; the Go build is per library copy
        self.path = os.path.join(ROOT, "build", name) if name == ".coq.lock" else os.path.join(BUILD, name)
    def __enter__(self):
        self.f = open(self.path, "w")
        fcntl.flock(self.f, fcntl.LOCK_EX)
    def __exit__(self, *a):
        fcntl.flock(self.f, fcntl.LOCK_UN)
        self.f.close()

def _big_stack():
    """coqc parses and type-checks the byte lists of whole files recursively: give it the largest stack allowed"""
    import resource
    try:
        soft, hard = resource.getrlimit(resource.RLIMIT_STACK)
        resource.setrlimit(resource.RLIMIT_STACK, (hard, hard))
    except Exception:
        pass

def run(cmd, cwd=None, env=None, timeout=None, input=None, big_stack=False):
    return subprocess.run(cmd, cwd=cwd, env=env, timeout=timeout, input=input,
                          stdout=subprocess.PIPE, stderr=subprocess.STDOUT, text=True,
                          preexec_fn=_big_stack if big_stack else None)

# ---------------------------------------------------------------- build steps

def build_coq():
    """Full .vo build of the development (idempotent)."""
    with Lock(".coq.lock"):
        if not os.path.exists(os.path.join(COQ, "Makefile")) or \
           os.path.getmtime(os.path.join(COQ, "Makefile")) < os.path.getmtime(os.path.join(COQ, "_CoqProject")):
            r = run(["coq_makefile", "-f", "_CoqProject", "-o", "Makefile"], cwd=COQ)
            if r.returncode != 0:
                return False, r.stdout
        r = run(["timeout", "3000", "make", "-j16"], cwd=COQ)
        return r.returncode == 0, r.stdout

def build_harness(race=False):
    """Build the implementation driver from /repo's current working tree, hooks on.
    race=True builds a second binary with the Go race detector (C12)."""
    with Lock(".go.lock"):
        if ALT:
            if os.path.isdir(HARNESS):
                shutil.rmtree(HARNESS)
            shutil.copytree(HARNESS_SRC, HARNESS)
            gm = open(os.path.join(HARNESS, "go.mod")).read().replace("=> /repo", "=> " + REPO)
            open(os.path.join(HARNESS, "go.mod"), "w").write(gm)
        shutil.copyfile(os.path.join(REPO, "go.sum"), os.path.join(HARNESS, "go.sum"))
        r = run(["go", "build", "-tags", "verif", "-o", os.path.join(BUILD, "impl"), "."],
                cwd=HARNESS, env=GOENV, timeout=900)
        if r.returncode == 0 and race:
            r = run(["go", "build", "-race", "-tags", "verif", "-o", os.path.join(BUILD, "impl-race"), "."],
                    cwd=HARNESS, env=GOENV, timeout=1800)
        return r.returncode == 0, r.stdout

GREP_GATE = re.compile(r"\b(Admitted|admit|Axiom|Parameter|Conjecture|Unset Guard|bypass_check)\b|type-in-type|impredicative-set")

def grep_gate():
    bad = []
    for path in glob.glob(os.path.join(COQ, "**", "*.v"), recursive=True):
        for n, line in enumerate(open(path), 1):
            code = re.sub(r"\(\*.*?\*\)", "", line)
            if GREP_GATE.search(code):
                bad.append("%s:%d: %s" % (os.path.relpath(path, ROOT), n, line.strip()))
    return bad

def proof_gate(prop):
    """Recompile Props/<prop>.v, count theorems, collect Print Assumptions output."""
    src = os.path.join(COQ, "Props", prop + ".v")
    text = open(src).read()
    theorems = re.findall(r"^\s*(?:Theorem|Corollary)\s+(\w+)", text, re.M)
    r = run(["timeout", "600", "coqc", "-Q", ".", "Avro", "Props/%s.v" % prop], cwd=COQ)
    out = r.stdout
    ok = r.returncode == 0
    closed = len(re.findall(r"Closed under the global context", out))
    axioms = []
    for m in re.finditer(r"Axioms:\n((?:.+\n?)+?)(?=\n\S|\Z)", out):
        for line in m.group(1).splitlines():
            mm = re.match(r"^(\S+)\s*:", line)
            if mm:
                axioms.append(mm.group(1))
    n_print = len(re.findall(r"^\s*Print Assumptions", text, re.M))
    bad_axioms = [a for a in axioms if a.split(".")[-1] not in STD_AXIOMS_ALLOWED]
    discharged = len(theorems) if ok and not bad_axioms and n_print >= len(theorems) else 0
    return {
        "ok": ok and not bad_axioms and n_print >= len(theorems) and len(theorems) > 0,
        "theorems": theorems, "closed": closed, "axioms": sorted(set(axioms)),
        "bad_axioms": bad_axioms, "discharged": discharged, "output_tail": out[-2000:] if not ok else "",
    }

# ---------------------------------------------------------------- running

def run_impl(prop, seed, tier, outdir, timeout):
    if os.path.isdir(outdir):
        shutil.rmtree(outdir)
    os.makedirs(outdir)
    binary = "impl-race" if PROPS.PROPS[prop].get("race") else "impl"
    try:
        r = run([os.path.join(BUILD, binary), "-prop", prop, "-seed", str(seed), "-tier", tier, "-out", outdir],
                cwd=HARNESS, env=GOENV, timeout=timeout)
    except subprocess.TimeoutExpired as e:
        out = e.stdout if isinstance(e.stdout, str) else (e.stdout or b"").decode("utf-8", "replace")
        return None, "implementation driver did not finish within %s s (hang?)\n%s" % (timeout, out[-2000:])
    if r.returncode != 0:
        return None, r.stdout
    return json.load(open(os.path.join(outdir, "result.json"))), r.stdout

def eval_model(outdir):
    """Evaluate every cases_<k>.v with coqc (vm_compute inside the assistant)."""
    shards = sorted(glob.glob(os.path.join(outdir, "cases_*.v")))
    def one(path):
        r = run(["timeout", "1500", "coqc", "-Q", COQ, "Avro", path], big_stack=True)
        return path, r.returncode, r.stdout
    bad, errors = [], []
    with ThreadPoolExecutor(max_workers=16) as ex:
        for path, rc, out in ex.map(one, shards):
            if rc != 0:
                errors.append("%s: coqc exit %d: %s" % (os.path.basename(path), rc, out[-800:]))
                continue
            for m in re.finditer(r"bad_\d+\s*=\s*\[(.*?)\]", out, re.S):
                bad += [int(x) for x in re.findall(r"\d+", m.group(1))]
    for f in glob.glob(os.path.join(outdir, "cases_*.vo")) + glob.glob(os.path.join(outdir, "cases_*.glob")) + \
             glob.glob(os.path.join(outdir, ".cases_*.aux")) + glob.glob(os.path.join(outdir, "cases_*.vok")) + \
             glob.glob(os.path.join(outdir, "cases_*.vos")):
        os.remove(f)
    return sorted(bad), errors

def load_known():
    known, fixed = {}, []
    path = os.path.join(ROOT, "known_findings.txt")
    if os.path.exists(path):
        for line in open(path):
            line = line.strip()
            m = re.match(r"known:\s+property=(\S+)\s+key=(\S+)\s+(.*)", line)
            if m:
                known.setdefault(m.group(1), {})[m.group(2)] = m.group(3)
            elif line.startswith("fixed:"):
                fixed.append(line)
    return known, fixed

def case_desc(outdir, cid):
    try:
        for line in open(os.path.join(outdir, "cases.jsonl")):
            d = json.loads(line)
            if d["id"] == cid:
                return d
    except OSError:
        pass
    return None

def write_replay(prop, seed, tier, n, body):
    os.makedirs(REPLAYS, exist_ok=True)
    path = os.path.join(REPLAYS, "%s-seed%d-%s-%d.json" % (prop, seed, tier, n))
    body = dict(body, property=prop, seed=seed, tier=tier,
                how="./check %s --replay %s  (re-runs the generator with this seed and tier against the current /repo tree)" % (prop, path))
    json.dump(body, open(path, "w"), indent=1, default=str)
    return path

# ---------------------------------------------------------------- one check

def check(prop, tier, seed, replay_of=None):
    t0 = time.time()
    meta = PROPS.PROPS[prop]
    outdir = os.path.join(BUILD, prop)
    violations, known_lines = [], []
    known, _fixed = load_known()
    known = known.get(prop, {})

    ok, out = build_coq()
    gate = {"ok": False, "theorems": [], "discharged": 0, "axioms": [], "closed": 0, "bad_axioms": []}
    if not ok:
        violations.append(("proof-build", {"what": "Coq development does not build", "output": out[-3000:]}, True))
    else:
        g = grep_gate()
        gate = proof_gate(prop)
        if g:
            gate["ok"] = False
            gate["grep_gate"] = g
        if not gate["ok"]:
            violations.append(("proof-gate", {"what": "proof obligations of Props/%s.v are not all discharged" % prop,
                                              "theorems": gate["theorems"], "detail": gate}, True))
    ok, out = build_harness(race=bool(meta.get("race")))
    if not ok:
        # the tree under /repo does not compile with the harness: nothing can be run
        print(out[-3000:])
        violations.append(("harness-build", {"what": "implementation driver does not build against /repo", "output": out[-3000:]}, True))
        res, bad, errors = None, [], []
    else:
        budget = meta.get("timeout_quick", 600) if tier == "quick" else meta.get("timeout_thorough", 7200)
        res, out = run_impl(prop, seed, tier, outdir, budget)
        if res is None:
            violations.append(("impl-run", {"what": "implementation driver failed", "output": out[-3000:]}, True))
            bad, errors = [], []
        else:
            bad, errors = eval_model(outdir)
            for e in errors:
                violations.append(("model-eval", {"what": "model evaluation failed", "detail": e}, True))

    oracle_failed_cases = set()
    unknown_failures = []
    seen_known = {}
    if res is not None:
        for f in res["failures"]:
            oracle_failed_cases.add(f["case_id"])
            if f["key"] in known:
                seen_known.setdefault(f["key"], f)
            else:
                unknown_failures.append(f)
        for key, f in sorted(seen_known.items()):
            known_lines.append("KNOWN-FINDING: property=%s key=%s %s (e.g. %s)" % (prop, key, known[key], f["what"]))
        # group unknown failures by key: one violation per key, first case as replay
        bykey = {}
        for f in unknown_failures:
            bykey.setdefault(f["key"], []).append(f)
        for key, fs in sorted(bykey.items()):
            violations.append(("oracle:" + key, {"what": fs[0]["what"], "key": key, "count": len(fs),
                                                 "case_id": fs[0]["case_id"], "replay": fs[0]["replay"],
                                                 "case": case_desc(outdir, fs[0]["case_id"])},
                               key == "correspondence-broken"))   # no input fails: the tie to the code no longer checks
        # model/implementation disagreements without an oracle failure on the same case
        lonely = [b for b in bad if b not in oracle_failed_cases]
        # disagreements on cases that belong to a known finding are part of that finding
        if lonely:
            found = None
            if not unknown_failures:
                # search: a larger, differently seeded run of the direct oracle
                sres, _ = run_impl(prop, seed + 7919, "thorough" if meta.get("search_thorough", True) else tier,
                                   os.path.join(BUILD, prop + "-search"), meta.get("timeout_search", 900))
                if sres is not None:
                    for f in sres["failures"]:
                        if f["key"] not in known:
                            found = f
                            break
            d = case_desc(outdir, lonely[0])
            if found is not None:
                violations.append(("search:" + found["key"], {"what": found["what"], "key": found["key"],
                                   "found_by": "search after model/implementation disagreement", "replay": found["replay"],
                                   "disagreement": d, "search_seed": seed + 7919}, False))
            elif not unknown_failures:
                violations.append(("correspondence", {"what": "model and implementation disagree on %d case(s); no input violating the property was found" % len(lonely),
                                                      "correspondence": meta["module"] + ".check", "case_ids": lonely[:20], "first_case": d}, True))

    # ---- evidence
    wall = time.time() - t0
    cov = {
        "obligations": len(gate["theorems"]), "discharged": gate["discharged"],
        "checker_cmd": "make -C coq (coqc 8.16.1, full .vo build) && coqc -Q coq Avro coq/Props/%s.v  [Print Assumptions under every theorem]" % prop,
        "trusted_base": meta["trusted_base"] + (["axioms reported by Print Assumptions: " + ", ".join(gate["axioms"])] if gate["axioms"] else
                                               ["Print Assumptions: Closed under the global context for all %d theorems" % gate["closed"]]),
        "theorems": gate["theorems"],
        "evaluations": res["evaluations"] if res else 0,
        "distinct_nontrivial": res["distinct_nontrivial"] if res else 0,
        "rule": meta["rule"],
        "samples": res["samples"] if res else [],
        "distribution": res["distribution"] if res else {},
        "model_disagreements": len(bad),
        "oracle_failures": len(res["failures"]) if res else 0,
        "known_findings_seen": sorted(seen_known),
        "extra": res["extra"] if res else {},
        "notes": res["notes"] if res else [],
        "exhaustive": False,
    }
    ev = {"property_id": prop, "tier": tier, "seed": seed, "level": "proof", "coverage": cov,
          "assumptions": meta["assumptions"], "wall_s": round(wall, 2), "violations": len(violations)}
    os.makedirs(EVID, exist_ok=True)
    json.dump(ev, open(os.path.join(EVID, prop + ".json"), "w"), indent=1, default=str)

    for l in known_lines:
        print(l)
    for n, (kind, body, nofail) in enumerate(violations):
        path = write_replay(prop, seed, tier, n, dict(body, kind=kind))
        print("VIOLATION property=%s replay=%s%s" % (prop, path, " no-failing-input-found" if nofail else ""))
        log("  ", kind, "-", body.get("what"))
    if not violations:
        log("%s %s: ok  (%d theorems, %d cases, %d distinct, %.1fs)" % (prop, tier, len(gate["theorems"]), cov["evaluations"], cov["distinct_nontrivial"], wall))
    return 1 if violations else 0

def setup():
    ok, out = build_coq()
    if not ok:
        print(out[-4000:]); return 1
    ok, out = build_harness()
    if not ok:
        print(out[-4000:]); return 1
    print("setup ok")
    return 0

def coqchk():
    """Independent re-check of the compiled development (coqchk -silent -o over every Props module)
    on a scratch copy, so that no check running meanwhile sees half-written .vo files.  Prints the
    context summary (axioms, type-in-type, unsafe fixpoints, assumed positivity)."""
    import tempfile
    ok, out = build_coq()
    if not ok:
        print(out[-2000:]); return 1
    tmp = tempfile.mkdtemp(prefix="avro-coqchk-")
    try:
        dst = os.path.join(tmp, "coq")
        shutil.copytree(COQ, dst)
        mods = sorted("Avro.Props." + f[:-3] for f in os.listdir(os.path.join(dst, "Props")) if f.endswith(".vo"))
        r = run(["timeout", "7200", "coqchk", "-silent", "-o", "-Q", ".", "Avro"] + mods, cwd=dst)
        txt = r.stdout
        i = txt.find("CONTEXT SUMMARY")
        print(txt[i:] if i >= 0 else txt[-3000:])
        os.makedirs(os.path.join(ROOT, "build"), exist_ok=True)
        open(os.path.join(ROOT, "build", "coqchk.log"), "w").write(txt)
        bad = r.returncode != 0 or "Axioms: <none>" not in txt.replace("\n", " ")
        return 1 if bad else 0
    finally:
        shutil.rmtree(tmp, ignore_errors=True)

def main(argv):
    if not argv:
        print(__doc__); return 2
    if argv[0] == "setup":
        return setup()
    if argv[0] == "coqchk":
        return coqchk()
    seed = int(os.environ.get("VERIF_SEED", "1") or "1")
    if argv[0] == "all":
        tier = argv[1] if len(argv) > 1 else "quick"
        rc = 0
        for p in sorted(PROPS.PROPS):
            rc |= check(p, tier, seed)
        return rc
    prop = argv[0]
    if prop not in PROPS.PROPS:
        print("unknown property", prop); return 2
    if len(argv) >= 3 and argv[1] == "--replay":
        doc = json.load(open(argv[2]))
        return check(prop, doc.get("tier", "quick"), int(doc.get("seed", seed)), replay_of=doc)
    tier = argv[1] if len(argv) > 1 else os.environ.get("VERIF_TIER", "quick")
    if tier not in ("quick", "thorough"):
        print("tier must be quick or thorough"); return 2
    return check(prop, tier, seed)
