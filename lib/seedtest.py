#!/usr/bin/env python3
"""Confirm a seeded change (suite passes, demo fails with it and passes without it) in a scratch
worktree, then run the registered checks against that worktree (VERIF_REPO) and record which catch it.
usage: seedtest.py <mutation dir> <property id> [more property ids to run]"""
import json, os, re, shutil, subprocess, sys, time
ROOT = os.path.dirname(os.path.dirname(os.path.abspath(__file__)))
WT = "/tmp/mut/run"
ENV = dict(os.environ, GOFLAGS="-mod=mod", GOPROXY="off")
for k in ("GOTOOLCHAIN", "GOSUMDB"):
    ENV.pop(k, None)

def sh(cmd, cwd=WT, timeout=1800, env=ENV):
    r = subprocess.run(cmd, shell=True, cwd=cwd, env=env, stdout=subprocess.PIPE, stderr=subprocess.STDOUT, text=True, timeout=timeout)
    return r.returncode, r.stdout

def clean():
    sh("git checkout -q -- . && git clean -fdq")

def main():
    mdir, prop = sys.argv[1], sys.argv[2]
    extra = sys.argv[3:]
    where = open(os.path.join(mdir, "WHERE.txt")).read()
    # the demo's own package clause says where it belongs; WHERE.txt is the fallback
    demo_src = open(os.path.join(mdir, "demo_test.go")).read()
    pm = re.search(r"^package\s+(\w+)", demo_src, re.M)
    pkg = pm.group(1) if pm else ""
    if pkg in ("time_test", "time", "avrotime_test"):
        sub = "time"
    elif pkg in ("null_test", "null"):
        sub = "null"
    elif pkg in ("avro_test", "avro"):
        sub = "."
    else:
        sub = "time" if re.search(r"\btime/", where) or "time_test" in where else ("null" if re.search(r"\bnull/", where) else ".")
    race = "-race " if "-race" in where else ""
    m = re.search(r"-run\s+'?\"?([A-Za-z0-9_|^$()]+)", where)
    runpat = m.group(1) if m else "."
    res = {"mutation": mdir, "property": prop, "demo_dir": sub, "demo_run": runpat}
    clean()
    rc, out = sh("git apply %s" % os.path.join(mdir, "patch.diff"))
    res["patch_applies"] = rc == 0
    if rc != 0:
        res["error"] = out[-500:]; print(json.dumps(res, indent=1)); return 1
    rc, out = sh("go build ./... && go test -count=1 ./...")
    res["suite_passes_with_change"] = rc == 0
    demo_dst = os.path.join(WT, sub, "zz_seed_demo_test.go")
    shutil.copyfile(os.path.join(mdir, "demo_test.go"), demo_dst)
    rc, out = sh("go test %s-count=1 -run '%s' ./%s" % (race, runpat, sub), timeout=900)
    res["demo_fails_with_change"] = rc != 0
    res["demo_output_with_change"] = out[-600:]
    os.remove(demo_dst)
    clean()
    shutil.copyfile(os.path.join(mdir, "demo_test.go"), demo_dst)
    rc, out = sh("go test %s-count=1 -run '%s' ./%s" % (race, runpat, sub), timeout=900)
    res["demo_passes_without_change"] = rc == 0
    os.remove(demo_dst)
    clean()
    res["confirmed"] = all(res[k] for k in ("suite_passes_with_change", "demo_fails_with_change", "demo_passes_without_change"))
    # run the checks against the changed tree
    sh("git apply %s" % os.path.join(mdir, "patch.diff"))
    res["checks"] = {}
    for p in [prop] + extra:
        t0 = time.time()
        rc, out = sh("./check %s quick" % p, cwd=ROOT, env=dict(os.environ, VERIF_REPO=WT), timeout=3000)
        lines = [l for l in out.splitlines() if l.startswith("VIOLATION") or l.startswith("   ")]
        res["checks"][p] = {"exit": rc, "caught": rc == 1 and any(l.startswith("VIOLATION") for l in lines),
                            "lines": lines[:8], "wall_s": round(time.time() - t0, 1)}
    clean()
    print(json.dumps(res, indent=1))
    json.dump(res, open(os.path.join(mdir, "seedtest.json"), "w"), indent=1)
    return 0

sys.exit(main())
