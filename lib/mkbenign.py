#!/usr/bin/env python3
"""Collect the behaviour-preserving changes (written by sub-agents that saw only the library) and what
the checks said about them into /verif/seeded/benign/<id>/ and seeded/benign/README.md.
usage: mkbenign.py [/tmp/mut/b1]"""
import json, os, re, shutil, sys
ROOT = os.path.dirname(os.path.dirname(os.path.abspath(__file__)))
SRC = sys.argv[1] if len(sys.argv) > 1 else "/tmp/mut/b1"
OUT = os.path.join(ROOT, "seeded", "benign")

def title(readme):
    for l in readme.splitlines():
        l = l.strip()
        if l:
            return l.lstrip("# ").strip()
    return ""

os.makedirs(OUT, exist_ok=True)
rows = []
for d in sorted(os.listdir(SRC)):
    m = re.fullmatch(r"([ABDEW]\d+)-out", d)
    if not m:
        continue
    for mm in sorted(os.listdir(os.path.join(SRC, d))):
        md = os.path.join(SRC, d, mm)
        bt = os.path.join(md, "benigntest.json")
        if not os.path.isfile(bt):
            continue
        res = json.load(open(bt))
        sid = "%s-%s" % (m.group(1), mm)
        dst = os.path.join(OUT, sid)
        os.makedirs(dst, exist_ok=True)
        for f in ("patch.diff", "README.md"):
            if os.path.exists(os.path.join(md, f)):
                shutil.copyfile(os.path.join(md, f), os.path.join(dst, f))
        readme = open(os.path.join(md, "README.md")).read() if os.path.exists(os.path.join(md, "README.md")) else ""
        meta = {"id": sid, "title": title(readme), "suite_passes": res.get("suite_passes"),
                "checks": {k: {"alarm": v["alarm"], "wall_s": v["wall_s"], "lines": v.get("lines", [])[:4]} for k, v in res.get("checks", {}).items()},
                "alarms": sorted(k for k, v in res.get("checks", {}).items() if v["alarm"])}
        json.dump(meta, open(os.path.join(dst, "meta.json"), "w"), indent=1)
        rows.append(meta)
rows = []
for d in sorted(os.listdir(OUT)):
    mf = os.path.join(OUT, d, "meta.json")
    if os.path.exists(mf):
        rows.append(json.load(open(mf)))
with open(os.path.join(OUT, "README.md"), "w") as f:
    f.write("# Behaviour-preserving changes\n\nRefactorings written by sub-agents that saw only the library and were asked to keep every\n"
            "observable behaviour (values, bytes, which calls fail, retention rules) while changing internals.\n"
            "`lib/benigntest.py` applies each in a scratch worktree and runs the checks of the area against it:\n"
            "any alarm would be a false alarm of the machinery.\n\n| id | change | checks run | alarms |\n|---|---|---|---|\n")
    for m in rows:
        f.write("| %s | %s | %s | %s |\n" % (m["id"], m["title"].replace("|", "/")[:100], ", ".join(sorted(m["checks"])), ", ".join(m["alarms"]) or "none"))
print(len(rows), "benign changes;", sum(1 for m in rows if m["alarms"]), "with alarms")
