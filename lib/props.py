# Per-property metadata used for evidence files.
COMMON_TB = [
    "Coq 8.16.1 kernel (coqc, full .vo build); vm_compute used for correspondence evaluation, finite sweeps and witnesses; no native_compute",
    "hand-written Gallina model under coq/Model tied to /repo by the correspondence check (harness/*.go prints cases + implementation observables as Coq terms, coq/Corr/*.v evaluates the model on them inside coqc); no extraction is used",
    "Go 1.24.0 toolchain, Go standard library and the harness generators/oracles; every line of Go is modelled, not verified",
]

PROPS = {
 "C17": {
  "module": "Avro.Corr.C17",
  "rule": "seeded generator: int64 boundaries of every varint length +-2, powers of two, bit-length-uniform randoms; valid encodings with tails, truncations, k continuation bytes + final byte for k<=12, all strings of length <=1 (thorough: <=2), random strings biased to continuation bytes; float32/float64 patterns by class (zero, subnormal, normal, inf, nan, halfway cases); each byte string also through Int16/32/64Codec.Read with canaries. A case is non-trivial and distinct by (kind, input) key; skip cases are counted trivial.",
  "trusted_base": COMMON_TB,
  "level_text": "14 theorems in coq/Props/C17.v, closed under the global context: varint decode(encode v)=v for every int64 with any tail; encoder = the specification's zig-zag/base-128 formula; <=10 bytes, canonical shape, shortest among everything the reader accepts; the reader accepts exactly well-formed <=10-byte forms below 2^64 (truncated => EOF, overlong/overflow => error); IntCodec width check (in range stored exactly, out of range error, never truncated); n-byte little-endian float round trip for every bit pattern; narrow64(widen32 b)=b for every non-NaN float32 pattern and NaN->NaN. The model is tied to buffer.go/int.go/float.go/bool.go by ~7600 differential cases per quick run plus exhaustive 2^32 implementation sweeps in the thorough tier.",
  "level_note": "Trusted: Coq kernel + vm_compute; the hand-written model of ReadBuf.uvarint/Varint, binary.AppendVarint, IntCodec, floatCodec, Float32DoubleCodec, BoolCodec (uint64 wrap modelled as mod 2^64; hardware float conversion modelled on IEEE fields, NaN payloads compared as NaN only); the Go harness and toolchain. No axioms.",
  "assumptions": [
    "bytes are Z in [0,256); uint64 wrap-around in ReadBuf.uvarint is modelled explicitly as mod 2^64",
    "float32<->float64 conversion by the hardware is modelled on IEEE-754 fields (round to nearest even); NaN payloads are compared only as NaN",
    "little-endian host (amd64), as the Go code itself assumes",
  ],
 },
}

NOT_YET = {}
HOOK_COMMITS = []
