# Per-property metadata used for evidence files.
COMMON_TB = [
    "Coq 8.16.1 kernel (coqc, full .vo build); vm_compute used for correspondence evaluation, finite sweeps and witnesses; no native_compute",
    "hand-written Gallina model under coq/Model tied to /repo by the correspondence check (harness/*.go prints cases + implementation observables as Coq terms, coq/Corr/*.v evaluates the model on them inside coqc); no extraction is used",
    "Go 1.24.0 toolchain, Go standard library and the harness generators/oracles; every line of Go is modelled, not verified",
]

PROPS = {
 "C17": {
  "module": "Avro.Corr.C17",
  "rule": "seeded generator: int64 boundaries of every varint length +-2, powers of two, bit-length-uniform randoms; valid encodings with tails, truncations, k continuation bytes + final byte for k<=12, all strings of length <=1 (thorough: <=2), random strings biased to continuation bytes; float32/float64 patterns by class (zero, subnormal, normal, inf, nan, halfway cases); each byte string also through Int16/32/64Codec.Read with canaries. A case is non-trivial and distinct by (kind, input) key; skip cases are counted trivial.",
  "trusted_base": COMMON_TB,
  "level_text": "14 theorems in coq/Props/C17.v, closed under the global context: varint decode(encode v)=v for every int64 with any tail; encoder = the specification's zig-zag/base-128 formula; <=10 bytes, canonical shape, shortest among everything the reader accepts; the reader accepts exactly well-formed <=10-byte forms below 2^64 (truncated => EOF, overlong/overflow => error); IntCodec width check (in range stored exactly, out of range error, never truncated); n-byte little-endian float round trip for every bit pattern; narrow64(widen32 b)=b for every non-NaN float32 pattern and NaN->NaN. The model is tied to buffer.go/int.go/float.go/bool.go by ~7600 differential cases per quick run plus exhaustive 2^32 implementation sweeps in the thorough tier.",
  "level_note": "Trusted: Coq kernel + vm_compute; the hand-written model of ReadBuf.uvarint/Varint, binary.AppendVarint, IntCodec, floatCodec, Float32DoubleCodec, BoolCodec (uint64 wrap modelled as mod 2^64; hardware float conversion modelled on IEEE fields, NaN payloads compared as NaN only); the Go harness and toolchain. No axioms.",
  "assumptions": [
    "bytes are Z in [0,256); uint64 wrap-around in ReadBuf.uvarint is modelled explicitly as mod 2^64",
    "float32<->float64 conversion by the hardware is modelled on IEEE-754 fields (round to nearest even); NaN payloads are compared only as NaN",
    "little-endian host (amd64), as the Go code itself assumes",
  ],
 },
}

CODEC_ASSUME = [
    "Go values are modelled by [gval] (nil and empty slices/[]byte identified; nil map distinct from empty map; pointers explicit); the read buffer by its unread suffix",
    "unsafe pointer arithmetic is modelled at the level of values (destination passing); field offsets become struct field indices",
    "map iteration order is recovered from the bytes; comparisons canonicalise maps (last write wins, sorted by key) and compare NaN payloads only as NaN",
    "registry = time.RegisterCodecs + null.RegisterCodecs (the harness registers both at start)",
]

PROPS["C03"] = {
  "module": "Avro.Corr.Codec",
  "rule": "spec-side generator (harness/gs.go, written from the Avro spec): random record schema depth<=4 over null,boolean,int,long,float,double,bytes,string,fixed,record,array,map, unions [null,X],[X,null],[X], 3-branch; random datum; random writer choices (block cuts, sized/unsized); encoded by the harness's own spec encoder, which is itself checked against the model's spec_encode and reference decoder (KSpecEnc); decoded by the library into a random compatible Go struct type (pointer indirection 0-2, int16/32/64/int, float32/64, null.* wrappers, fields dropped/permuted/added) and skipped; every 4th case also as a container file with random block partition (empty blocks included), codec in {absent,null,deflate,snappy}, split metadata. Distinct by (encoding, target) key; KSpecEnc and read/skip cases all non-trivial.",
  "trusted_base": COMMON_TB,
  "level_text": "Theorem C03_reader_complete (closed under the global context): for every registry, schema, Go type, codec built by the model of buildCodec, every byte string the strict reference decoder (written from the spec; verifies block byte sizes, canonical varints) accepts as datum d with rest r, and every destination: c_read returns exactly apply_datum c dest d (a function of the datum only) and rest r. All codecs of the library are covered (primitives, record, array, map, pointer, the three union codecs, time and null.* wrappers, custom). C03_no_truncation: a successful integer read fits the destination width. Not yet proved in Coq: that spec_encode with every choice tree is accepted by the reference decoder (theorem S; checked per case by KSpecEnc), and the lift through the container layer (checked differentially).",
  "level_note": "Trusted: Coq kernel; the hand-written model of build.go and all Read methods, tied to the code by ~800 differential cases per quick run (decoded values, remaining length, outcome class); harness generators and its conv oracle; Go toolchain. No axioms.",
  "assumptions": CODEC_ASSUME,
}
PROPS["C04"] = {
  "module": "Avro.Corr.Codec",
  "rule": "same spec-side generator as C03; each encoding is decoded into three targets (two random compatible projections with fields dropped/permuted/added, and a struct with no matching field) and skipped through each target's codec; compared: Skip's remaining length vs the encoding's end, decoded projections vs the harness's conv, and both against the model.",
  "trusted_base": COMMON_TB,
  "level_text": "Theorems C04_skip_exact and C04_skip_equals_read (closed under the global context): for every codec the model of buildCodec returns (any registry, schema, Go type or none) and every byte string the strict reference decoder accepts, Skip stops exactly where the encoding ends, and that is where Read stops; this includes the size-prefixed block fast path, nested records, maps of arrays, all three union codecs. Proved by a generic lemma on the block loop (skipping lands where strict decoding does) plus induction over the codec tree.",
  "level_note": "Trusted: Coq kernel; the model of every Skip/Read method and of buildCodec, tied to the code by ~1500 differential cases per quick run; harness generators. The projection clause (values of remaining fields unchanged) is checked by the direct oracle and the model comparison on every case; its Coq statement over field lists is listed as future work in DESIGN.md. No axioms.",
  "assumptions": CODEC_ASSUME,
}

NOT_YET = {}
HOOK_COMMITS = []
