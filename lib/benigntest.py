#!/usr/bin/env python3
"""Run registered checks against a behaviour-preserving change (a refactoring written by a sub-agent that
saw only the library) in a scratch worktree: any VIOLATION is a false alarm of the machinery (or the change
is not behaviour-preserving after all: then the report says on which input).
usage: benigntest.py <change dir with patch.diff> <Cxx> [<Cxx> ...]"""
import json, os, subprocess, sys, time
ROOT = os.path.dirname(os.path.dirname(os.path.abspath(__file__)))
WT = "/tmp/mut/run"
ENV = dict(os.environ, GOFLAGS="-mod=mod", GOPROXY="off")
for k in ("GOTOOLCHAIN", "GOSUMDB"):
    ENV.pop(k, None)

def sh(cmd, cwd=WT, timeout=3600, env=ENV):
    r = subprocess.run(cmd, shell=True, cwd=cwd, env=env, stdout=subprocess.PIPE, stderr=subprocess.STDOUT, text=True, timeout=timeout)
    return r.returncode, r.stdout

def main():
    mdir, props = sys.argv[1], sys.argv[2:]
    res = {"change": mdir}
    sh("git checkout -q -- . && git clean -fdq")
    rc, out = sh("git apply %s" % os.path.join(mdir, "patch.diff"))
    res["patch_applies"] = rc == 0
    if rc != 0:
        res["error"] = out[-400:]
        json.dump(res, open(os.path.join(mdir, "benigntest.json"), "w"), indent=1); return 1
    rc, out = sh("go build ./... && go test -count=1 ./...")
    res["suite_passes"] = rc == 0
    res["checks"] = {}
    env = dict(ENV, VERIF_REPO=WT)
    for p in props:
        t0 = time.time()
        rc, out = sh("./check %s quick" % p, cwd=ROOT, env=env)
        lines = [l for l in out.splitlines() if "VIOLATION" in l or l.startswith("   ")]
        res["checks"][p] = {"exit": rc, "alarm": rc != 0, "lines": lines[:8], "wall_s": round(time.time() - t0, 1)}
    sh("git checkout -q -- . && git clean -fdq")
    json.dump(res, open(os.path.join(mdir, "benigntest.json"), "w"), indent=1)
    print(json.dumps({k: v["alarm"] for k, v in res["checks"].items()}))
    return 0

sys.exit(main())
